"""Engine-group properties: shared corpus, per-property projection of the trace comparison,
Gallina oracles (extracted) on the implementation's traces, classification of violations by the
model's write site / stuck reason so that known findings are matched precisely."""
import json
import os
import re
import subprocess

import engine
from common import ROOT, BUILD, ML, sh

TERM = {'completed', 'submitted', 'backed', 'cancelled', 'error', 'aborted', 'skipped', 'removed'}
ALL_KINDS = {'N', 'T', 'M', 'P', 'A', 'X', 'Q', 'D', 'F', 'BUILD-FAILED', 'CASE-ERROR', 'GONE', 'OUT-OF-FUEL', 'START-FAILED', 'PANIC', 'HUNG'}

# property -> (line kinds its theorems depend on, oracle clause range)
PROPS = {
    'C01': ({'N', 'T', 'P', 'Q', 'A', 'X'}, (100, 200)),
    'C02': ({'N', 'T', 'A'}, (200, 300)),
    'C03': ({'N', 'T', 'P', 'A', 'D'}, (300, 400)),
    'C05': ({'N', 'T', 'M', 'P', 'A', 'Q'}, (500, 600)),
    'C08': ({'N', 'T', 'M', 'A'}, (800, 900)),
    'C19': ({'N', 'T', 'F', 'A', 'Q'}, (1900, 2000)),
    # the reference interpretation is the engine model: these properties own no oracle clause of their own
    # (C06 shares 202, the second revival of a task by a catch) and are decided by trace equality on their line kinds
    'C11': ({'RT', 'RP', 'N', 'A'}, (1100, 1200)),
    'C04': ({'N', 'T', 'A', 'Q'}, (400, 500)),
    'C06': ({'N', 'T', 'M', 'P', 'A'}, (202, 203)),
    'C07': ({'N', 'M', 'P', 'D', 'A'}, (700, 800)),
    'C16': ({'N', 'T', 'M', 'A'}, (1600, 1700)),
}
NONTRIVIAL = {
    'C04': (lambda ls: any(l.startswith('N ') and ' branch ' in l for l in ls), "a branch task was created"),
    'C06': (lambda ls: any(l.startswith('T ') and l.split(' ')[3] == 'error' for l in ls), "some task entered the error state"),
    'C07': (lambda ls: any('acts.transform.set' in l for l in ls if l.startswith('N ')) or any(l.startswith('A ok') for l in ls), "a transform act ran or a client action was accepted"),
    'C16': (lambda ls: any(l.startswith('N ') and l.split(' ')[2] == 'dyn' for l in ls), "a generated / hook / pushed act was created"),
}
CLAUSE_TEXT = {
    101: "quiescent, process not ended, and nothing a client could answer (no open interrupt act, no pending timeout)",
    201: "illegal state transition", 202: "second revive of one task by a catch",
    301: "terminal process event before the start event", 302: "second start event", 303: "second terminal process event",
    304: "task reported completed while a task directly beneath it is still open",
    305: "non-error terminal process event while a task other than a hook act is still open",
    306: "terminal process event state differs from the root task's state",
    501: "rejected action changed a task / emitted something", 502: "action accepted on a terminal task",
    503: "action accepted on an unknown task", 504: "action accepted on a task of the wrong kind", 505: "action accepted after the process ended",
    801: "second created message of one task", 802: "second terminal message of one task", 803: "terminal message without a created message for a task that started",
    804: "message for a branch", 805: "message state differs from the task state", 806: "terminal task without terminal message",
    807: "message act that ran did not send exactly one message", 808: "child's created message before its parent's",
    1901: "timeout rule fired before the task had been open for the configured duration", 1902: "timeout rule fired twice for one task",
    1903: "timeout rule fired for a task that is already terminal",
    1904: "a due timeout rule of an open task did not fire at the tick (no later than one tick after the limit)",
    901: "task creation index out of order", 902: "transition does not start from the task's recorded state", 903: "action result without operation",
}


def strip_site(l):
    if l.startswith(('RT ', 'RP ')):
        return ' '.join(l.split(' ')[:4])          # point, task, field
    return re.sub(r' @\d+$', '', l)


def run_oracle(cases_path, trace_path):
    rc, out, _ = sh([os.path.join(ML, 'driver_engine'), 'oracle', cases_path, trace_path], timeout=3000)
    if rc != 0:
        raise RuntimeError('oracle failed: ' + out[-400:])
    v = {}
    for l in out.splitlines():
        m = re.match(r'case (\S+): V (\d+) (\d+)', l)
        if m:
            v.setdefault(m.group(1), []).append((int(m.group(2)), int(m.group(3))))
    return v


class Trace:
    """replay of one case's lines (model lines carry the write site)"""

    def __init__(self, lines):
        self.lines = [l for l in lines if not l.startswith(('MF ', 'RT ', 'RP '))]
        self.ti = {}
        for l in self.lines:
            p = l.split(' ')
            if p[0] == 'N':
                self.ti[int(p[1])] = dict(nid=p[2], prev=p[3], kind=p[4], lvl=int(p[5]), uses=p[6])
        self.hooks = set(int(x.split()[1]) for x in self.lines if x.startswith('D ') and x.endswith(' hook'))

    def parent(self, i):
        lvl = self.ti[i]['lvl']
        p = self.ti[i]['prev']
        while p != '-':
            p = int(p)
            if self.ti[p]['lvl'] < lvl:
                return p
            p = self.ti[p]['prev']
        return None


def needs_cycle(wf):
    """branch dependency cycle: a `needs` chain that returns to its start, or needs pointing at the else branch"""
    bad = False

    def visit_step(s):
        nonlocal bad
        brs = s.get('branches', [])
        ids = {b['id']: b for b in brs}
        for b in brs:
            seen, cur = set(), b
            while cur is not None and cur.get('needs'):
                nxt = cur['needs'][0]
                if nxt in seen or nxt == b['id']:
                    bad = True
                    break
                seen.add(nxt)
                cur = ids.get(nxt)
                if cur is not None and cur.get('else'):
                    # the else branch waits for every sibling, the needs branch for the else branch
                    bad = True
                    break
            for st in b.get('steps', []):
                visit_step(st)
        for a in s.get('acts', []):
            for c in a.get('catches', []) + a.get('timeout', []):
                for st in c.get('steps', []):
                    visit_step(st)
        for c in s.get('catches', []) + s.get('timeout', []):
            for st in c.get('steps', []):
                visit_step(st)
    for s in wf.get('steps', []):
        visit_step(s)
    return bad


def tmo_nodes(wf):
    """ids of the nodes that declare a timeout rule"""
    out = set()

    def visit(o):
        if isinstance(o, dict):
            if o.get('timeout') and 'id' in o:
                out.add(o['id'])
            for v in o.values():
                visit(v)
        elif isinstance(o, list):
            for v in o:
                visit(v)
    visit(wf)
    return out


# properties that speak about interleavings of client actions with the scheduler: checked on the held-scheduler corpus too
HELD = {'C01', 'C02', 'C03', 'C04', 'C05', 'C06', 'C08', 'C16'}
# properties stated against a reference interpretation of the model: a trace that differs from the engine model's is the failure
REFERENCE = {'C04', 'C06', 'C07', 'C16'}


def classify(case, clause, tid, mlines):
    """class string of a violation, computed on the model's trace of the same case (it agrees line by
    line with the implementation's when the correspondence holds)"""
    tr = Trace(mlines)
    st = {}
    ended = False
    if clause == 304:
        for l in tr.lines:
            p = l.split(' ')
            if p[0] == 'N':
                st[int(p[1])] = 'none'
            elif p[0] == 'T':
                st[int(p[1])] = p[3]
                if p[3] == 'completed' and int(p[1]) == tid:
                    ds = [x for x in st if st[x] not in TERM and tr.parent(x) == tid]
                    if ds:
                        return f"304|{p[5] if len(p) > 5 else '@?'}"
        return "304@?"
    if clause == 305:
        last = '@?'
        for l in tr.lines:
            p = l.split(' ')
            if p[0] == 'T' and p[1] == '0' and p[3] in TERM:
                last = p[5] if len(p) > 5 else '@?'
        return f"305|{last}" if last != '@?' else "305@?"
    if clause == 303:
        # a workflow without steps completes in its own run and is emitted once there and once by Task::next
        return "303:workflow_without_steps" if not case['wf'].get('steps') else "303"
    if clause == 802:
        ms = [i for i, l in enumerate(tr.lines) if l.startswith(f'M {tid} ') and ' created ' not in l]
        if len(ms) >= 2 and not any(l.startswith(f'T {tid} ') for l in tr.lines[ms[0]:ms[1]]):
            return "802:same_state_twice"
        return "802:after_transition"
    if clause == 101:
        last = {}            # task -> (index of its last transition, state, site)
        for k, l in enumerate(tr.lines):
            p = l.split(' ')
            if p[0] == 'N':
                st[int(p[1])] = 'none'
            elif p[0] == 'T':
                st[int(p[1])] = p[3]
                last[int(p[1])] = (k, p[3], p[5] if len(p) > 5 else '@?')
            elif p[0] == 'P' and p[1] in TERM:
                ended = True
            elif p[0] == 'Q' and not ended and not any(s == 'interrupted' for s in st.values()):
                if any(st[x] not in TERM and tr.ti[x]['nid'] in tmo_nodes(case['wf']) for x in st):
                    continue
                opens = [x for x in st if st[x] not in TERM]
                leaves = [x for x in opens if not any(tr.parent(y) == x for y in opens)]
                if not leaves:
                    return "101:no_open_task"
                x = leaves[0]
                if tr.ti[x]['kind'] == 'branch' and st[x] == 'pending' and needs_cycle(case['wf']):
                    return "101:branch_dependency_cycle"
                kids = [y for y in st if tr.parent(y) == x]

                def below(a, b):
                    while a is not None:
                        a = tr.parent(a)
                        if a == b:
                            return True
                    return False
                px = tr.parent(x)
                if any(below(h, x) or (px is not None and tr.parent(h) == px) for h in tr.hooks if h in st):
                    return "101:hook_act"
                # the classes are structural (what the model, which the implementation matches line by line, is stuck in);
                # the write site that closed the last child goes into the detail text, not into the class: an
                # implementation that is stuck where the model is not never gets here (the model trace has no such point)
                if kids:
                    errs = [k for k in kids if st[k] == 'error']
                    y = max(errs or kids, key=lambda k: last.get(k, (-1,))[0])
                    site = last.get(y, (0, '', '@?'))[2]
                    if errs:
                        return f"101:errored_child|{tr.ti[x]['kind']}:{st[x]}:child_error{site}"
                    return f"101:children_done|{tr.ti[x]['kind']}:{st[x]}:child_{st[y]}{site}"
                site = last.get(x, (0, '', '@?'))[2]
                return f"101:{tr.ti[x]['kind']}:{st[x]}:no_children|self{site}"
        return "101:?"
    return str(clause)


def run(prop, tier, seed):
    kinds, (lo, hi) = PROPS[prop]
    if prop == 'C19':
        # its own corpus: timeouts on most steps and acts, a tick every other operation
        res = engine.build(tier, seed, variant='-tmo', n=(240 if tier == 'quick' else 4000), gen_args=('tmo',))
    else:
        res = engine.build(tier, seed)
    agree, dis, cases, m, i = engine.compare(res, kinds | {'BUILD-FAILED', 'CASE-ERROR', 'GONE', 'OUT-OF-FUEL', 'START-FAILED', 'PANIC', 'HUNG'}, strip_site)
    vi = run_oracle(res['cases'], res['impl'])
    held_stats = None
    if prop in HELD:
        # the same generator with four actions in ten issued while the scheduler is held (tasks the action scheduled are
        # still queued when the next operation arrives; one in four of those actions is repeated at once, identically):
        # interleavings of client actions and scheduler steps at queue granularity, which the theorems quantify over
        res2 = engine.build(tier, seed, variant='-hold', n=(200 if tier == 'quick' else 3000), gen_args=('hold',), idtag='h', with_corpus=False)
        agree2, dis2, cases2, m2, i2 = engine.compare(res2, kinds | {'BUILD-FAILED', 'CASE-ERROR', 'GONE', 'OUT-OF-FUEL', 'START-FAILED', 'PANIC', 'HUNG'}, strip_site)
        agree += agree2
        dis = dis + dis2
        cases = dict(cases, **cases2)
        m = dict(m, **m2)
        i = dict(i, **i2)
        vi = dict(vi, **run_oracle(res2['cases'], res2['impl']))
        held_stats = {'cases': res2['ncases'], 'held_actions': res2['distribution'].get('held', 0), 'repeated_actions': res2['distribution'].get('repeated', 0),
                      'agree': agree2, 'harness_errors': res2['harness_errors']}
        if res2['harness_errors']:
            res = dict(res, harness_errors=list(res['harness_errors']) + list(res2['harness_errors']))
        res = dict(res, ncases=res['ncases'] + res2['ncases'])
    class_stats = None
    class_ids = set()
    if prop in ('C01', 'C03', 'C07'):
        # (C07 runs this corpus for its data flow: declared outputs, options and inputs under a name with `__` inside, which is not private)
        # the class for which progress is proved for every run (model/Class.v, proofs/Progress.v): sequential workflows of
        # interactive acts, complete / submit / remove on any task, four actions in ten while the scheduler is held.  The
        # generator checks membership with the extracted frag_nodes; here the implementation must follow the model line by
        # line, and a stuck state in one of these cases is never a known finding
        res3 = engine.build(tier, seed, variant='-cls', n=(150 if tier == 'quick' else 2500), gen_args=('cls', 'hold'), idtag='c', with_corpus=False)
        agree3, dis3, cases3, m3, i3 = engine.compare(res3, kinds | {'BUILD-FAILED', 'CASE-ERROR', 'GONE', 'OUT-OF-FUEL', 'START-FAILED', 'PANIC', 'HUNG'}, strip_site)
        agree += agree3
        dis = dis + dis3
        cases = dict(cases, **cases3)
        m = dict(m, **m3)
        i = dict(i, **i3)
        vi = dict(vi, **run_oracle(res3['cases'], res3['impl']))
        class_ids = set(cases3)
        class_stats = {'cases': res3['ncases'], 'in_class': res3['distribution'].get('c01-class', 0), 'outside_class_discarded': res3['distribution'].get('class-miss', 0),
                       'held_actions': res3['distribution'].get('held', 0), 'agree': agree3, 'harness_errors': res3['harness_errors'],
                       'ended': len([c for c in cases3 if any(l.startswith('P completed') for l in i3.get(c, []))])}
        if res3['harness_errors']:
            res = dict(res, harness_errors=list(res['harness_errors']) + list(res3['harness_errors']))
        res = dict(res, ncases=res['ncases'] + res3['ncases'])
    violations = []
    broken = []
    nontrivial = 0
    for cid, c in cases.items():
        if any(l.startswith('A ok') for l in i.get(cid, [])):
            nontrivial += 1
    for cid, vs in vi.items():
        for clause, tid in vs:
            if not (lo <= clause < hi or clause >= 900):
                continue
            full = classify(cases[cid], clause, tid, m.get(cid, []))
            cls = full.split('|')[0]
            if cid in class_ids and clause in (101, 304, 305):
                # progress (C01) and hierarchical completion (C03) are theorems on this class: never a known finding
                cls = f'{clause}:in_proved_class'
            violations.append({'class': cls, 'detail': f"case {cid}: {CLAUSE_TEXT.get(clause, clause)} (task #{tid}) [{full}]",
                               'case': {'kind': 'engine', 'case': cases[cid], 'clause': clause, 'task': tid}})
    if prop == 'C11':
        # every live-vs-row difference the implementation reports at a quiescent point is a violation
        for cid, ls in i.items():
            for l in ls:
                if l.startswith(('RT ', 'RP ')):
                    p = l.split(' ')
                    field = p[3] if p[0] == 'RT' else 'process-' + p[2]
                    violations.append({'class': f"11:{field}", 'detail': f"case {cid}: at quiescent point {p[1]} the store row differs from the live {'task #' + p[2] if p[0] == 'RT' else 'process'}: {l}",
                                       'case': {'kind': 'engine', 'case': cases[cid], 'clause': 1101, 'task': 0}})
                    break
        nontrivial = len([cid for cid in cases if sum(1 for l in i.get(cid, []) if l.startswith('T ')) > 8])
    if res['harness_errors']:
        broken.append(('harness', "; ".join(res['harness_errors'])[:500]))
    for d in dis[:5]:
        broken.append(('correspondence', f"case {d['case']['id']}: model `{d['model']}` vs implementation `{d['impl']}` at projected line {d['at']} (line kinds {sorted(kinds)})"))
    # a disagreement is a concrete case: for the properties whose statement is conformance with the reference
    # interpretation (the engine model) it is the failing input; for the others it is kept as replay material
    disagreements = []
    for d in dis[:5]:
        mk = (d['model'] or 'END').split(' ')[0]
        ik = (d['impl'] or 'END').split(' ')[0]
        disagreements.append({'class': f"diff:{mk}/{ik}",
                              'detail': f"case {d['case']['id']}: the reference interpretation continues with `{d['model']}`, the implementation with `{d['impl']}` (projected line {d['at']}, line kinds {sorted(kinds)})",
                              'case': {'kind': 'engine', 'case': d['case'], 'clause': 0, 'task': 0}})
    limit_stats = None
    if prop == 'C19':
        nontrivial = len([cid for cid in cases if any(l.startswith('F ') for l in i.get(cid, []))])
        # "no later than one tick after the limit": the traces agree up to a tick at which the model -- where a due rule of an
        # open task fires at the tick, C19_fires_when_due -- fires a rule and the implementation goes on without firing any:
        # that history is the failing input (the trace oracle alone cannot see a firing that is missing)
        for d in dis:
            if (d['model'] or '').startswith('F ') and not (d['impl'] or '').startswith('F '):
                p_ = d['model'].split(' ')
                violations.append({'class': '1904', 'detail': f"case {d['case']['id']}: {CLAUSE_TEXT[1904]} (task #{p_[1]}, rule {p_[2]}: due at the tick of {p_[3]}, open since {p_[4]}, limit {p_[5]} ms; the implementation continues with `{d['impl']}`) [1904]",
                                   'case': {'kind': 'engine', 'case': d['case'], 'clause': 1904, 'task': int(p_[1]) if p_[1].isdigit() else 0}})
        ldis, limit_stats = limit_check(tier, seed, os.path.join(res['dir'], 'limit'))
        violations += ldis
        # a reload between two operations changes no firing: same histories with the process dropped from the cache and
        # loaded from the store before every operation (compared where the reload loses no generated node, see C12)
        out, errs = engine.variant(res, 'evict', ('extra', 'evict'))
        if errs:
            broken.append(('harness', "evict: " + "; ".join(errs)[:400]))
        ev = engine.split_cases(out)
        same_f = 0
        for cid, c in cases.items():
            if cid.startswith('h'):
                continue
            shape = lambda ls: [re.sub(r' \d{4,}$', '', l) for l in ls if l.startswith('N ')]
            if shape(i.get(cid, [])) != shape(ev.get(cid, [])):
                continue
            fa = [l for l in i.get(cid, []) if l.startswith('F ')]
            fb = [l for l in ev.get(cid, []) if l.startswith('F ')]
            if fa == fb:
                same_f += 1
            else:
                k = 0
                while k < min(len(fa), len(fb)) and fa[k] == fb[k]:
                    k += 1
                violations.append({'class': '19:reload_changes_firing',
                                   'detail': f"case {cid}: with a reload before every operation the firings differ: uninterrupted `{fa[k] if k < len(fa) else 'none'}`, reloaded `{fb[k] if k < len(fb) else 'none'}` (F tid rule now start limit)",
                                   'case': {'kind': 'engine-variant', 'case': c, 'variant': 'evict', 'flags': ['extra', 'evict'], 'at': k, 'expected': fa[k] if k < len(fa) else 'END', 'observed': fb[k] if k < len(fb) else 'END'}})
        limit_stats = dict(limit_stats, reload_same_firings=same_f)
    if prop in NONTRIVIAL:
        nontrivial = len([cid for cid in cases if NONTRIVIAL[prop][0](i.get(cid, []))])
    cov = {'evaluations': res['ncases'], 'distinct_nontrivial': nontrivial,
           'rule': "generated workflows (steps, branches if/else/needs, acts irq/msg/set/block/parallel/sequence, catches, timeouts, setup hooks, conditions over inputs) with model-driven client histories (all ten action kinds, ticks; ~70% aimed at open acts, the rest at terminal / non-act / unknown tasks); distinct by construction from one PRNG; non-trivial = " + (NONTRIVIAL[prop][1] if prop in NONTRIVIAL else "at least one accepted client action (C19: at least one rule firing)"),
           'traces_validated_against_impl': agree, 'disagreements': len(dis),
           'input_distribution': res['distribution'], 'corpus_cases': res['ncorpus'],
           'samples': [json.loads(open(res['cases']).readline())]}
    if held_stats:
        cov['held_scheduler_corpus'] = held_stats
    if class_stats:
        cov['proved_class_corpus'] = class_stats
    if limit_stats:
        cov['timeout_limit_strings'] = limit_stats
    return {'cov': cov, 'violations': violations, 'broken': broken, 'disagreements': disagreements, 'reference': prop in REFERENCE,
            'assumptions': ["one engine operation (scheduler step, client action, tick) is atomic; overlap of exec and update on different threads is not modelled",
                            "deterministic tier: current_thread runtime, FIFO queue below 100 pending signals",
                            "QuickJS evaluates the generated condition fragment as the model's evaluator does"]}


def replay(prop, case, workdir):
    c = case['case']
    ml, il, errs = engine.rerun_single(c, workdir)
    cp = os.path.join(workdir, 'one.jsonl')
    op = os.path.join(workdir, 'one.out')
    v = run_oracle(cp, op).get(c['id'], [])
    print("implementation trace:")
    for l in il:
        if not l.startswith('MF'):
            print("  " + l)
    print("oracle on the implementation trace:", v)
    kinds, (lo, hi) = PROPS.get(prop, (ALL_KINDS, (0, 1000)))
    a = [strip_site(x) for x in engine.project(ml, kinds)]
    b = engine.project(il, kinds)
    if a != b:
        print("model and implementation traces differ")
    hit = [x for x in v if lo <= x[0] < hi]
    print("REPRODUCED" if hit or a != b else "NOT-REPRODUCED")
    return 1 if hit or a != b else 0


def limit_check(tier, seed, workdir):
    """timeout limit strings through the engine's parser / conversion and through the extracted Limit model"""
    from common import Rng, ML, sh
    r = Rng(seed * 31 + 19)
    fixed = ["", "s", "m", "5", "5x", "5 s", " 5s", "5s ", "5.0s", "1e3s", "--5s", "+-5s", "+s", "-s", "5S", "5ms", "ss", "5s\n", "1_000s", "0x10s", "00s", "-0d", "+0h",
             "9223372036854775807s", "9223372036854775808s", "-9223372036854775808s", "-9223372036854775809s", "9223372036854775807m", "-9223372036854775808d",
             "153722867280912930m", "153722867280912931m", "2562047788015215h", "2562047788015216h", "106751991167300d", "106751991167301d", "12h", "7d", "90m", "3s"]
    strs = list(fixed)
    for _ in range(200 if tier == 'quick' else 3000):
        x = r.below(100)
        if x < 55:
            v = r.pick([r.below(10), r.below(100000), 2 ** (10 + r.below(53)) + r.below(1000), 2 ** 63 - 1 - r.below(3), 2 ** 63 + r.below(3)])
            s = r.pick(['', '', '+', '-']) + ('0' * r.below(3)) + str(v) + r.pick('smhd')
        elif x < 80:
            s = "".join(r.pick(list("0123456789+-smhd x.")) for _ in range(1 + r.below(8)))
        else:
            s = str(r.below(1000)) + r.pick(['', 'S', 'ms', 'sec', 'w', 'y', ' s', 's s'])
        strs.append(s)
    os.makedirs(workdir, exist_ok=True)
    cp = os.path.join(workdir, 'limit.jsonl')
    open(cp, 'w').write("".join(json.dumps({'id': f"l{k}", 'kind': 'limit', 's': s}, ensure_ascii=False) + "\n" for k, s in enumerate(strs)))
    op = os.path.join(workdir, 'limit.impl')
    errs = engine.run_harness(cp, op, os.path.join(workdir, 'lw'), (), shards=1, mode='model')
    if errs:
        raise RuntimeError('harness model (limit) failed: ' + "; ".join(errs)[:400])
    rc, out, _ = sh(f"{os.path.join(ML, 'driver_model')} limit {cp}", timeout=600)
    if rc != 0:
        raise RuntimeError('driver_model limit failed: ' + out[-300:])
    mo = {l.split(': ', 1)[0][5:]: l.split(': ', 1)[1] for l in out.splitlines() if l.startswith('case ')}
    im = engine.split_cases(op)
    dis, acc = [], 0
    for k, s in enumerate(strs):
        a, b = mo.get(f"l{k}"), (im.get(f"l{k}") or ['?'])[0]
        acc += int(b != 'L err')
        if a != b:
            dis.append({'class': '19:limit', 'detail': f"timeout limit {s!r}: the model reads `{a}`, the engine `{b}` (value unit seconds)",
                        'case': {'kind': 'limit', 'case': {'id': f"l{k}", 'kind': 'limit', 's': s}}})
    return dis, {'strings': len(strs), 'accepted': acc}


def anonymous_side(res, n):
    """the first n corpus cases with node ids removed where nothing refers to them; run uninterrupted (cached beside the corpus)"""
    cp = os.path.join(res['dir'], 'cases-anon.jsonl')
    out = os.path.join(res['dir'], 'impl-anon.txt')
    done = out + '.done'
    by_id = {}
    lines = []
    for l in open(res['cases']):
        if not l.strip() or len(lines) >= n:
            continue
        c = json.loads(l)
        refs = set(re.findall(r'"(?:next|to)": "([^"]+)"', l))
        for m in re.finditer(r'"needs": \[([^\]]*)\]', l):
            refs.update(re.findall(r'"([^"]+)"', m.group(1)))

        def strip(v, top=False):
            if isinstance(v, dict):
                if not top and 'id' in v and v['id'] not in refs and ('uses' in v or 'acts' in v or 'branches' in v or not v.get('steps')):
                    if 'if' not in v or 'uses' in v:      # a branch keeps its id (else / needs speak about siblings)
                        v.pop('id')
                for k, x in v.items():
                    if k not in ('o', 'params', 'inputs', 'outputs'):
                        strip(x)
            elif isinstance(v, list):
                for x in v:
                    strip(x)
        strip(c['wf'], top=True)
        c['id'] = 'an' + c['id']
        by_id[c['id']] = c
        lines.append(json.dumps(c) + "\n")
    if os.path.exists(done) and os.path.exists(cp) and open(cp).read() == "".join(lines):
        return {'dir': res['dir'], 'cases': cp, 'impl': out, 'by_id': by_id, 'errs': json.load(open(done))}
    open(cp, 'w').write("".join(lines))
    wd = os.path.join(res['dir'], 'var-anon')
    errs = engine.run_harness(cp, out, wd, ('extra',))
    import shutil
    shutil.rmtree(wd, ignore_errors=True)
    json.dump(errs, open(done, 'w'))
    return {'dir': res['dir'], 'cases': cp, 'impl': out, 'by_id': by_id, 'errs': errs}


def run_c12(tier, seed):
    """run A (never interrupted) against run B (process dropped from the cache and reloaded before every
    operation, memory store) and run C (engine stopped and restarted on the SQLite store before every operation)"""
    res = engine.build(tier, seed)
    a = engine.split_cases(res['impl'])
    cases = {}
    for l in open(res['cases']):
        if l.strip():
            c = json.loads(l)
            cases[c['id']] = c
    kinds = {'N', 'T', 'M', 'P', 'A', 'D'}
    f = lambda l: re.sub(r' \d{4,}$', '', l) if l[0] in 'NT' else l
    violations, broken = [], []
    stats = {}
    # the same workflows with the ids of their acts (and of steps nothing refers to) left out: the engine generates ids
    # for them when it builds the tree, and a reload has to come back with the same ones
    anon = anonymous_side(res, 120 if tier == 'quick' else 1500)
    anon_a = engine.split_cases(anon['impl'])
    runs = [(res, a, cases, 'evict', ('extra', 'evict')), (res, a, cases, 'sqlite-restart', ('extra', 'sqlite', 'restart')),
            (anon, anon_a, anon['by_id'], 'anon-evict', ('extra', 'evict')), (anon, anon_a, anon['by_id'], 'anon-sqlite-restart', ('extra', 'sqlite', 'restart'))]
    if anon['errs']:
        broken.append(('harness', "anon: " + "; ".join(anon['errs'])[:400]))
    for rs, a, cases, name, flags in runs:
        out, errs = engine.variant(rs, name, flags)
        if errs:
            broken.append(('harness', f"{name}: " + "; ".join(errs)[:400]))
        b = engine.split_cases(out)
        same = 0
        for cid, c in cases.items():
            x = [f(l) for l in a.get(cid, []) if l.split(' ')[0] in kinds]
            y = [f(l) for l in b.get(cid, []) if l.split(' ')[0] in kinds]
            if x == y:
                same += 1
                continue
            k = 0
            while k < min(len(x), len(y)) and x[k] == y[k]:
                k += 1
            ex = x[k] if k < len(x) else 'END'
            ob = y[k] if k < len(y) else 'END'
            if ex.startswith('N ') and ex.split(' ')[2] == 'dyn':
                cls = '12:generated_node_not_created'
            else:
                cls = f"12:{ex.split(' ')[0]}/{ob.split(' ')[0]}"
            violations.append({'class': cls, 'detail': f"case {cid} ({name}): the uninterrupted run continues with `{ex}`, the reloaded run with `{ob}` (line {k})",
                               'case': {'kind': 'engine-variant', 'case': c, 'variant': name, 'flags': list(flags), 'at': k, 'expected': ex, 'observed': ob}})
        stats[name] = {'same': same, 'of': len(cases)}
    # several open processes of one model, started with different inputs, across an engine restart on the SQLite store (the
    # bulk restore of a starting engine, Store::load, rebuilds all of them): every process continues as in the run that was
    # never stopped
    import multi
    from common import Rng
    r = Rng(seed * 271 + 12)
    _res, solo, members = multi.corpus_members(tier, seed)
    groups, plan = [], {}
    for g in range(12 if tier == 'quick' else 120):
        m = r.pick(members)
        size = 2 + r.below(2)
        pids = [f"p{k}" for k in range(size)]
        starts = [{'start': 0, 'pid': p, 'vars': {'k3': 100 + 10 * k, 'k4': 200 + 10 * k}} for k, p in enumerate(pids)]
        seqs = [[dict(p=p, t=o['t'], a=o['a'], o=o['o']) for o in m['ops']] for p in pids]
        ops = multi.interleave(r, seqs)
        cut = r.below(len(ops) + 1)
        base = {'cfg': {'keep': True, 'backend': 'sqlite'}, 'models': [m['wf']], 'procs': {p: 0 for p in pids}}
        groups.append(dict(base, id=f"u{g}", ops=starts + ops))
        groups.append(dict(base, id=f"v{g}", ops=starts + ops[:cut] + [{'restart': 1}] + ops[cut:]))
        plan[g] = (m, pids, cut)
    got = multi.run_multi(groups, os.path.join(res['dir'], 'multi-restart'))
    violations += multi.problems('12', groups, got)
    same_multi = 0
    for g, (m, pids, cut) in plan.items():
        for p in pids:
            x = [f(l) for l in got.get(f"u{g}/{p}", []) if l.split(' ')[0] in kinds]
            y = [f(l) for l in got.get(f"v{g}/{p}", []) if l.split(' ')[0] in kinds]
            if x == y:
                same_multi += 1
                continue
            k = 0
            while k < min(len(x), len(y)) and x[k] == y[k]:
                k += 1
            ex = x[k] if k < len(x) else 'END'
            ob = y[k] if k < len(y) else 'END'
            cls = '12:generated_node_not_created' if (ex.startswith('N ') and ex.split(' ')[2] == 'dyn') else f"12:multi:{ex.split(' ')[0]}/{ob.split(' ')[0]}"
            violations.append({'class': cls, 'detail': f"group of {len(pids)} processes of one model (corpus case {m['id']}), engine restarted after {cut} operations: process {p} continues with `{ex}` when never stopped, with `{ob}` after the restart (line {k})",
                               'case': {'kind': 'multi', 'case': next(c for c in groups if c['id'] == f"v{g}"), 'pid': p}})
    stats['multi-restart'] = {'same': same_multi, 'of': sum(len(v[1]) for v in plan.values())}
    cases, a = runs[0][2], runs[0][1]
    nontrivial = len([cid for cid in cases if sum(1 for l in a.get(cid, []) if l.startswith('A ')) >= 2])
    cov = {'evaluations': 2 * len(cases) + 2 * len(anon['by_id']), 'distinct_nontrivial': nontrivial,
           'rule': "every case of the engine corpus (generated workflows with model-driven client histories) is run three times on the real engine: uninterrupted; with the process dropped from the cache and reloaded from the memory store before every operation; with the engine closed and a new engine started on the same SQLite database before every operation. N/T/M/P/A/D lines (task creations, state writes, messages, process events, action results, final task data) are compared without ids and times; non-trivial = at least two operations, i.e. at least two reload points",
           'traces_validated_against_impl': min(v['same'] for v in stats.values()), 'variants': stats, 'input_distribution': res['distribution'], 'corpus_cases': res['ncorpus'],
           'samples': [json.loads(open(res['cases']).readline())]}
    return {'cov': cov, 'violations': violations, 'broken': broken,
            'assumptions': ["reload points are operation boundaries (quiescent points); a stop in the middle of an operation is not explored",
                            "ids and timestamps are not compared",
                            "the deterministic tier: current_thread runtime, virtual clock"]}


def replay_variant(case, workdir):
    c = case['case']
    os.makedirs(workdir, exist_ok=True)
    cp = os.path.join(workdir, 'one.jsonl')
    open(cp, 'w').write(json.dumps(c) + "\n")
    outs = []
    for name, flags in (('plain', ('extra',)), (case['variant'], tuple(case['flags']))):
        op = os.path.join(workdir, f'one-{name}.out')
        engine.run_harness(cp, op, os.path.join(workdir, name), flags, shards=1)
        outs.append([re.sub(r' \d{4,}$', '', l) if l[0] in 'NT' else l for l in engine.split_cases(op).get(c['id'], []) if l.split(' ')[0] in {'N', 'T', 'M', 'P', 'A', 'D'}])
    k = 0
    while k < min(len(outs[0]), len(outs[1])) and outs[0][k] == outs[1][k]:
        k += 1
    if outs[0] != outs[1]:
        print(f"line {k}: uninterrupted `{outs[0][k] if k < len(outs[0]) else 'END'}` reloaded `{outs[1][k] if k < len(outs[1]) else 'END'}`")
    print("REPRODUCED" if outs[0] != outs[1] else "NOT-REPRODUCED")
    return 1 if outs[0] != outs[1] else 0
