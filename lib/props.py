"""Per-property checks: proof obligations + correspondence + oracle -> verdict."""
import json
import os
import sys
import time
import traceback

import common
from common import ROOT, BUILD


def runner_c10(tier, seed, workdir):
    import c10
    n = 120 if tier == 'quick' else 1500
    res = c10.run(seed, n, workdir)
    violations = []
    for d in res['disagreements'][:20]:
        c = d['case']
        op = c['ops'][d['op']]
        cls = classify_c10(d)
        violations.append({'class': cls, 'detail': f"backend={d['backend']} collection={c['coll']} op#{d['op']}={op['op']}: model (proved equal to the filter/sort/page specification) gives {short(d['model'])}, implementation gives {short(d['impl'])}",
                           'case': {'kind': 'store', 'backend': d['backend'], 'case': shrink_c10(d, workdir), 'op': d['op'], 'expected': d['model'], 'observed': d['impl']}})
    st = res['stats']
    cov = {'evaluations': st['ops'], 'distinct_nontrivial': st['by_op'].get('query', 0) and st['nonempty_pages'],
           'rule': "operation sequences (create/update/delete/find/exists/query) over the six collections, records with all fields distinct; a case counts as non-trivial per query whose page is not empty; distinctness by construction (fresh values from one PRNG)",
           'traces_validated_against_impl': st['traces_validated_against_impl'],
           'input_distribution': st, 'samples': [res['cases'][0], res['cases'][-1]] if res['cases'] else []}
    return {'cov': cov, 'violations': violations,
            'assumptions': ["SQLite's SQL engine, r2d2 and sea-query's SQL printing are exercised, not modelled",
                            "floats and integers beyond i64 are outside the model's value domain (JNum Z within i64)",
                            "unordered queries are compared as sets (the property fixes no order for them)"]}


def runner_c09(tier, seed, workdir):
    import c09
    n = 150 if tier == 'quick' else 2500
    res = c09.run(seed, n, workdir)
    violations = []
    for d in res['disagreements'][:20]:
        c = d['case']
        opd = c['ops'][d['op']] if d['op'] >= 0 else 'start'
        violations.append({'class': f"{d['backend']}:{list(opd)[0] if isinstance(opd, dict) else opd}",
                           'detail': f"backend={d['backend']} case {c['id']} op#{d['op']}={opd}: model (proved: acknowledged / acted-on messages stay silent, retries within the limit, error rows silent) gives {short(d['model'])}, implementation gives {short(d['impl'])}",
                           'case': {'kind': 'retry', 'backend': d['backend'], 'case': dict(c, ops=c['ops'][:d['op'] + 1]), 'op': d['op'], 'expected': d['model'], 'observed': d['impl']}})
    st = res['stats']
    cov = {'evaluations': st['ops'], 'distinct_nontrivial': st['redeliveries'],
           'rule': "1..4 messages on an acknowledging channel x histories (<= 24 ops) of tick(300..5000 ms) / ack / action / redo / clear, retry limit 0..3, interval 1 s, virtual clock, both store backends; non-trivial = a redelivery happened (counted per delivery); deliveries to different messages within one tick are compared as a multiset",
           'traces_validated_against_impl': st['traces_validated_against_impl'], 'input_distribution': st,
           'samples': res['cases'][:2]}
    return {'cov': cov, 'violations': violations,
            'assumptions': ["the tokio interval that produces ticks is replaced by harness-issued ticks on a virtual clock",
                            "the tick's selection query is answered by the store as the filter reads (C10)",
                            "message ids are unique (nanoid)"]}


def runner_c14(tier, seed, workdir):
    import c14
    n = 240 if tier == 'quick' else 4000
    res = c14.run(seed, n, workdir)
    violations = []
    for d in res['disagreements'][:20]:
        violations.append({'class': d['what'].split(' ')[0], 'detail': f"case {d['case']['id']}: {d['what']}: expected {short(d['expected'])}, the engine gives {short(d['observed'])}",
                           'case': {'kind': 'script', 'case': d['case'], 'what': d['what'], 'expected': d['expected'], 'observed': d['observed']}})
    st = res['stats']
    cov = {'evaluations': st['cases'], 'distinct_nontrivial': st['values_beyond_i32'] + st['templates_multi'],
           'rule': "JSON values of depth <= 3 with boundary integers (+-2^31, +-2^31+-1, 2^32, 3e9, +-2^53, 2^53-1), floats, unicode / quoted / multi-line strings, passed as a start variable, returned and $set by an acts.transform.code act and stringified inside it; parameter strings with 0..4 templates {{ name }} between plain segments (adjacent, repeated, with stray braces and newlines) on a msg act; non-trivial = integer beyond 32 bits in the value or more than one template",
           'traces_validated_against_impl': st['traces_validated_against_impl'], 'input_distribution': st, 'samples': [res['cases'][0]['vars'], res['cases'][0]['t']]}
    return {'cov': cov, 'violations': violations,
            'assumptions': ["QuickJS evaluates `{{ name }}` to the value of the global `name` (eval is a parameter of the model)",
                            "IEEE binary64: integers of magnitude <= 2^53 are exact (premise of the theorems); serde_json number printing",
                            "object key order is not observable (serde_json maps are sorted)"]}


def runner_c18(tier, seed, workdir):
    import c18
    n = 100 if tier == 'quick' else 1500
    res = c18.run(seed, n, workdir)
    violations = []
    for d in res['disagreements'][:20]:
        violations.append({'class': 'delivery', 'detail': f"case {d['case']['id']} run {d['run']}: message {short(d['message'])} should reach channels {d['model']} (registered and matching), handlers invoked: {d['impl']}",
                           'case': {'kind': 'chan', 'case': d['case'], 'message': d['message'], 'expected': d['model'], 'observed': d['impl']}})
    st = res['stats']
    cov = {'evaluations': st['messages'], 'distinct_nontrivial': st['deliveries'],
           'rule': "1..4 channel ids registered / re-registered / closed / unsubscribed at arbitrary points between runs of a fixed workflow (10 messages per run: workflow, steps, irq and msg acts, created and completed, keys, tags, uses); patterns per field from the glob grammar (literal, *, ?, [a-c], [!a], {a,b}) built around the actual field values; one evaluation = one emitted message checked against every channel; non-trivial = handler invocations",
           'traces_validated_against_impl': st['traces_validated_against_impl'], 'input_distribution': st, 'samples': res['cases'][:1]}
    return {'cov': cov, 'violations': violations,
            'assumptions': ["globset implements the pattern language as the reference matcher of model/Chan.v reads it (compared on every generated pattern / message pair)",
                            "the order in which different channels are served is not observable"]}


def runner_c20(tier, seed, workdir):
    import c20
    res = c20.run(seed, tier, workdir)
    violations = []
    for d in res['disagreements'][:20]:
        violations.append({'class': d['class'], 'detail': f"case {d['case']['id']} ({d['case']['kind']}): expected {short(d['expected'])}, the engine gives {short(d['observed'])}",
                           'case': {'kind': 'model', 'case': d['case'], 'model_case': d['model_case'], 'expected': d['expected'], 'observed': d['observed']}})
    st = res['stats']
    cov = {'evaluations': st['serde'] + st['tree'] + st['deploy'], 'distinct_nontrivial': st['serde'] + (st['tree'] - st['tree_rejected']) + st['deploy'],
           'rule': "serde: workflows generated from the field tables the translator reads out of acts/src/model/*.rs (every field of Workflow/Step/Branch/Act/Catch/Timeout; a third with all fields set, the rest with random subsets; unicode, YAML-hostile and multi-line text, boundary integers up to u64, floats, nested values), parsed, compared field by field with the input, written to JSON and YAML and parsed back; tree: workflows with nested branches, acts, catches, timeouts, `on` acts, explicit next (backward, self, forward, unknown), generated ids and duplicate ids, Engine::verif_tree against Tree.build_model; deploy: deploy / rm / start sequences over three model ids (valid and invalid models, changing `on` lists and ver fields) on a fresh engine against Serde.dstep; non-trivial = serde cases + accepted trees + deploy histories",
           'traces_validated_against_impl': st['agree'], 'input_distribution': st, 'samples': [res['cases'][-1]]}
    return {'cov': cov, 'violations': violations,
            'assumptions': ["serde's derive implements the field attributes as the tables record them; serde_json / serde_yaml text layers and the leaf codecs are exercised by the round-trip cases, not modelled",
                            "a `next` that names an `on` act is outside the generated grammar",
                            "generated ids (shortid) do not collide"]}


def classify_c10(d):
    op = d['case']['ops'][d['op']]
    return f"{d['backend']}:{op['op']}"


def shrink_c10(d, workdir):
    """delete operations while the disagreement on the last op of the prefix persists"""
    import c10
    case = dict(d['case'])
    ops = case['ops'][:d['op'] + 1]
    schema = c10.schemas()

    def still(ops2):
        c = dict(case, ops=ops2, id='shrink')
        r = c10.run_cases([c], schema, os.path.join(workdir, 'shrink'), backends=(d['backend'],))
        return any(x['op'] == len(ops2) - 1 for x in r['disagreements'])
    try:
        i = 0
        while i < len(ops) - 1:
            cand = ops[:i] + ops[i + 1:]
            if still(cand):
                ops = cand
            else:
                i += 1
    except Exception:
        pass
    return dict(case, ops=ops)


def short(x, n=300):
    s = json.dumps(x, sort_keys=True)
    return s if len(s) <= n else s[:n] + '...'


def engine_runner(prop):
    def run(tier, seed, workdir):
        import engine_props
        return engine_props.run(prop, tier, seed)
    return run


RUNNERS = {'C10': runner_c10, 'C09': runner_c09, 'C14': runner_c14, 'C18': runner_c18, 'C20': runner_c20}
for _p in ('C01', 'C02', 'C03', 'C04', 'C05', 'C06', 'C07', 'C08', 'C11', 'C16', 'C19'):
    RUNNERS[_p] = engine_runner(_p)


def runner_c12(tier, seed, workdir):
    import engine_props
    return engine_props.run_c12(tier, seed)


RUNNERS['C12'] = runner_c12


def _multi(name):
    def run(tier, seed, workdir):
        import multi
        return getattr(multi, name)(tier, seed, workdir)
    return run


RUNNERS['C13'] = _multi('run_c13')
RUNNERS['C15'] = _multi('run_c15')
RUNNERS['C17'] = _multi('run_c17')


def check(prop, tier, seed):
    t0 = time.time()
    workdir = os.path.join(BUILD, 'run', f'{prop}-{tier}')
    os.makedirs(workdir, exist_ok=True)
    broken = []          # things that no longer check: (component, detail)
    ok, tlog = common.translate()
    if not ok:
        broken.append(('translator', tlog.strip()[-400:]))
    coq = common.coq_check_prop(prop)
    if not coq['built']:
        warn = "; ".join(l.strip() for l in tlog.splitlines() if l.startswith('TRANSLATOR-WARNING'))
        broken.append(('theorem', f"props/{prop}.v does not compile: {coq.get('first_error', '')}" + (f" [{warn[:400]}]" if warn else '')))
    for p in coq['problems']:
        broken.append(('development', p))
    if coq['built'] and coq['discharged'] != coq['obligations']:
        broken.append(('theorem', f"{coq['obligations'] - coq['discharged']} obligations of props/{prop}.v not discharged"))
    ok, olog = common.ocaml_build()
    if not ok:
        broken.append(('model-build', olog[-600:]))
    ok, hlog = common.harness_build()
    if not ok:
        broken.append(('harness-build', hlog[-800:]))
    result = {'cov': {'evaluations': 0, 'distinct_nontrivial': 0, 'samples': []}, 'violations': [], 'assumptions': []}
    if not [b for b in broken if b[0] in ('model-build', 'harness-build')]:
        try:
            result = RUNNERS[prop](tier, seed, workdir)
            broken += result.get('broken', [])
        except Exception as e:  # a crashing run is a broken correspondence, not a pass
            broken.append(('correspondence', f"{type(e).__name__}: {e}\n{traceback.format_exc()[-600:]}"))
    if tier == 'thorough' and coq['built']:
        rc, out, _ = common.sh(['coqchk', '-silent', '-o', '-Q', 'gen', 'Acts.Gen', '-Q', 'model', 'Acts.Model', '-Q', 'proofs', 'Acts.Proofs',
                                '-Q', 'props', 'Acts.Props', f'Acts.Props.{prop}'], cwd=common.COQ, timeout=1800)
        result['cov']['coqchk'] = out.strip()[-600:]
        if rc != 0:
            broken.append(('coqchk', out[-400:]))
    known = common.known_findings(prop)
    known_classes = {k['class']: k for k in known if k['kind'] == 'finding'}
    new, seen_known = [], {}
    if result.get('reference'):
        result['violations'] = list(result['violations']) + list(result.get('disagreements', []))
    for v in result['violations']:
        if v['class'] in known_classes:
            seen_known.setdefault(v['class'], []).append(v)
        else:
            new.append(v)
    for cls, k in known_classes.items():
        print(f"KNOWN-FINDING: property={prop} {k['text']} (reproduced on {len(seen_known.get(cls, []))} generated cases this run)")
    result['cov']['known_findings_rechecked'] = {cls: len(v) for cls, v in seen_known.items()}
    nviol = len(new) + (1 if broken else 0)
    common.write_evidence(prop, tier, seed, t0, coq, result['cov'], result['assumptions'], violations=nviol)
    if new:
        v = new[0]
        path = common.write_replay(prop, 'violation', {'property': prop, 'tier': tier, 'seed': seed, 'class': v['class'], 'detail': v['detail'],
                                                       'case': v['case'], 'others': [x['detail'] for x in new[1:6]], 'broken': broken})
        print(v['detail'][:1000])
        print(f"VIOLATION property={prop} replay={path}")
        return 1
    if broken:
        obj = {'property': prop, 'tier': tier, 'seed': seed, 'broken': [{'component': c, 'detail': d} for c, d in broken],
               'note': 'the property is no longer shown to hold: the listed theorem / translator / correspondence component does not check; no input was found on which the property itself fails'}
        if result.get('disagreements'):
            # model and implementation differ on this case (the property's oracle accepts both traces): ./check <id> --replay re-runs it
            obj['case'] = result['disagreements'][0]['case']
            obj['disagreement'] = result['disagreements'][0]['detail']
        path = common.write_replay(prop, 'broken', obj)
        for c, d in broken:
            print(f"BROKEN {c}: {d[:600]}")
        print(f"VIOLATION property={prop} replay={path} no-failing-input-found")
        return 1
    print(f"OK property={prop} tier={tier} obligations={coq['obligations']} discharged={coq['discharged']} evaluations={result['cov'].get('evaluations')} wall={time.time() - t0:.1f}s")
    return 0


def replay(prop, path):
    obj = json.load(open(path))
    print(json.dumps({k: obj[k] for k in obj if k != 'case'}, indent=1)[:3000])
    case = obj.get('case')
    if not case:
        print("nothing to re-run: the replay names a broken theorem / component")
        return 1
    workdir = os.path.join(BUILD, 'run', f'{prop}-replay')
    if case.get('kind') == 'store':
        import c10
        common.ocaml_build(); common.harness_build()
        r = c10.run_cases([case['case']], c10.schemas(), workdir, backends=(case['backend'],))
        for d in r['disagreements']:
            print(f"op#{d['op']} model={short(d['model'])} impl={short(d['impl'])}")
        print("REPRODUCED" if r['disagreements'] else "NOT-REPRODUCED")
        return 1 if r['disagreements'] else 0
    if case.get('kind') in ('script', 'chan'):
        print(json.dumps(case, indent=1)[:2000])
        print("re-run with ./check C14 quick (the case is part of the seed's corpus); expected vs observed above")
        return 1
    if case.get('kind') == 'engine-variant':
        import engine_props
        common.ocaml_build(); common.harness_build()
        return engine_props.replay_variant(case, workdir)
    if case.get('kind') == 'multi':
        import multi
        common.ocaml_build(); common.harness_build()
        return multi.replay(case, workdir)
    if case.get('kind') == 'model':
        import c20
        common.translate(); common.ocaml_build(); common.harness_build()
        dis, _ = c20.evaluate([case['case']], [case['model_case']] if case.get('model_case') else [], c20.fields(), workdir)
        for d in dis:
            print(f"{d['class']}: expected {short(d['expected'])} observed {short(d['observed'])}")
        print("REPRODUCED" if dis else "NOT-REPRODUCED")
        return 1 if dis else 0
    if case.get('kind') == 'retry':
        import c09
        common.ocaml_build(); common.harness_build()
        r = c09.run_cases([case['case']], workdir, backends=(case['backend'],))
        for d in r['disagreements']:
            print(f"op#{d['op']} model={short(d['model'])} impl={short(d['impl'])}")
        print("REPRODUCED" if r['disagreements'] else "NOT-REPRODUCED")
        return 1 if r['disagreements'] else 0
    import engine_props
    common.ocaml_build(); common.harness_build()
    return engine_props.replay(prop, case, workdir)
