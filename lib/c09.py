"""C09 acknowledged delivery: generated ack / tick / action / redo / clear histories on the real
engine (memory and SQLite stores) and on the extracted model (model/Retry.v)."""
import json
import os
import re

import engine
from common import ML, Rng, sh


def gen_cases(seed, n):
    r = Rng(seed)
    cases = []
    for k in range(n):
        nmsg = 1 + r.below(4)
        mx = r.pick([0, 1, 1, 2, 2, 3])
        ops = []
        for _ in range(3 + r.below(22)):
            x = r.below(100)
            if x < 50:
                ops.append({'tick': r.pick([300, 999, 1000, 1001, 1500, 2500, 5000])})
            elif x < 68:
                ops.append({'ack': r.below(nmsg + 1)})
            elif x < 80:
                ops.append({'action': r.below(nmsg)})
            elif x < 92:
                ops.append({'redo': 1})
            else:
                ops.append({'clear': 1})
        if k % 3 == 1 and k % 4 != 3:
            # some messages are acknowledged from inside the handler, at their first delivery, while a second acknowledging
            # channel with the same filter is handed the same message
            ops = [{'ack': i, 'early': 1} for i in range(nmsg) if r.chance(60)] + ops
        keep = True
        if k % 4 == 3:
            # the process ends early (every act answered) and, with keep_processes off, leaves the cache:
            # its messages still have to be retried / flagged
            keep = False
            ops = [{'action': i} for i in range(nmsg)] + ops
        cases.append({'id': f"r{k}", 'n': nmsg, 'max': mx, 'interval_s': 1, 'keep': keep, 'ops': ops})
    return cases


def parse(path):
    out = {}
    for l in open(path, errors='replace'):
        m = re.match(r'case (\S+) op (-?\d+) (?:now=(-?\d+) )?(?:ok=(\w+) )?deliveries=\[(.*?)\] rows=\[(.*?)\]', l)
        if m:
            out.setdefault(m.group(1), []).append({'op': int(m.group(2)), 'now': int(m.group(3)) if m.group(3) else None,
                                                   'ok': m.group(4) != 'false', 'deliveries': m.group(5), 'rows': m.group(6)})
    return out


def model_input(case, impl_lines):
    """the model is driven by the same operations at the times the implementation saw"""
    first = impl_lines[0]
    nmsg = len([x for x in first['deliveries'].split(';') if x])
    toks = []
    for i in range(nmsg):
        toks += ['E', str(i)]
    nops = nmsg
    known = nmsg
    for op, il in zip(case['ops'], impl_lines[1:]):
        now = il['now']
        if 'tick' in op:
            toks += ['T', str(now)]
        elif 'ack' in op:
            toks += ['A', str(op['ack']), str(now)]
        elif 'action' in op:
            # only an accepted action closes the messages of its task
            toks += (['X', str(op['action']), str(now)] if il['ok'] else ['N'])
        elif 'redo' in op:
            toks += ['R', str(now)]
        else:
            toks += ['C']
        # messages first seen at this operation were emitted by it (the terminal message of the process)
        fresh = sorted(int(x.split(':')[0]) for x in il['deliveries'].split(';') if x and int(x.split(':')[0]) >= known)
        for i in fresh:
            toks += ['+E', str(100 + i)]
            known += 1
        nops += 1
    return f"{case['id']} {case['interval_s'] * 1000} {case['max']} {nops} " + " ".join(toks), nmsg


def run(seed, n, workdir, backends=('mem', 'sqlite')):
    cases = gen_cases(seed, n)
    return run_cases(cases, workdir, backends)


def run_cases(cases, workdir, backends=('mem', 'sqlite')):
    os.makedirs(workdir, exist_ok=True)
    cp = os.path.join(workdir, 'cases.jsonl')
    open(cp, 'w').write("".join(json.dumps(c) + "\n" for c in cases))
    dis, validated, stats = [], 0, {'cases': len(cases), 'ops': sum(len(c['ops']) for c in cases), 'deliveries': 0, 'redeliveries': 0, 'error_rows': 0, 'by_op': {}}
    for c in cases:
        for op in c['ops']:
            k = list(op)[0]
            stats['by_op'][k] = stats['by_op'].get(k, 0) + 1
    for b in backends:
        op = os.path.join(workdir, f'impl-{b}.txt')
        errs = engine.run_harness(cp, op, os.path.join(workdir, 'w-' + b), (b,), mode='retry')
        if errs:
            raise RuntimeError('harness retry failed: ' + "; ".join(errs)[:600])
        impl = parse(op)
        mi = os.path.join(workdir, f'model-{b}.in')
        info = {}
        with open(mi, 'w') as f:
            for c in cases:
                il = impl.get(c['id'], [])
                if len(il) != len(c['ops']) + 1:
                    dis.append({'backend': b, 'case': c, 'op': -1, 'model': None, 'impl': f"{len(il)} reports for {len(c['ops'])} ops"})
                    continue
                line, nmsg = model_input(c, il)
                info[c['id']] = nmsg
                f.write(line + "\n")
        rc, out, _ = sh([os.path.join(ML, 'driver_retry'), mi], timeout=600)
        if rc != 0:
            raise RuntimeError('model driver failed: ' + out[-400:])
        model = {}
        for l in out.splitlines():
            m = re.match(r'case (\S+) op (\d+) deliveries=\[(.*?)\] rows=\[(.*?)\]', l)
            if m:
                model.setdefault(m.group(1), []).append((m.group(3), m.group(4)))
        for c in cases:
            if c['id'] not in info:
                continue
            nmsg = info[c['id']]
            il, ml = impl[c['id']], model.get(c['id'], [])
            ok = True
            # the start: nmsg first deliveries, all rows created
            start_d = ";".join(f"{i}:0" for i in range(nmsg))
            # acknowledgements made inside the handler have happened by the first report: the model applies them as its first operations
            nearly = len([o for o in c['ops'] if 'early' in o])
            if sorted(il[0]['deliveries'].split(';')) != sorted(start_d.split(';')) or (ml[nmsg - 1 + nearly][1] if nmsg else '') != il[0]['rows']:
                dis.append({'backend': b, 'case': c, 'op': -1, 'model': ml[nmsg - 1 + nearly] if nmsg else None, 'impl': il[0]})
                continue
            for j in range(nearly, len(c['ops'])):
                md, mr = ml[nmsg + j]
                # the order of deliveries to different messages within one tick is the store's row order: not part of the property
                canon = lambda d: sorted(x for x in d.split(';') if x)
                if canon(md) != canon(il[j + 1]['deliveries']) or mr != il[j + 1]['rows']:
                    dis.append({'backend': b, 'case': c, 'op': j, 'model': {'deliveries': md, 'rows': mr}, 'impl': il[j + 1]})
                    ok = False
                    break
                stats['deliveries'] += len([x for x in md.split(';') if x])
                stats['redeliveries'] += len([x for x in md.split(';') if x and not x.endswith(':0')])
                stats['error_rows'] += mr.count(':error:')
            if ok:
                validated += 1
    stats['traces_validated_against_impl'] = validated
    return {'cases': cases, 'disagreements': dis, 'stats': stats}
