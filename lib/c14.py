"""C14: JSON values through scripts, and parameter templates, on the real engine; templates also on the
extracted model (model/Script.v)."""
import json
import os
import re

import engine
from common import ML, Rng, sh

BOUNDARY = [0, 1, -1, 2**31 - 1, 2**31, -2**31, -2**31 - 1, 2**32, 3000000000, -3000000000, 2**53, -2**53, 2**53 - 1, 2**40 + 7]


def gen_value(r, depth):
    x = r.below(12 if depth > 0 else 8)
    if x == 0:
        return None
    if x == 1:
        return r.chance(50)
    if x in (2, 3):
        return r.pick(BOUNDARY)
    if x == 4:
        return r.below(2000) - 1000
    if x == 5:
        # fractions, and integral floats beyond i64 (from 1e21 on JavaScript prints them with an exponent, so the text the script
        # sees parses as a float again): they stay floats
        return r.pick([0.5, -1.25, 1e10 + 0.5, 3.75, 1234.5, 1e300, -2.5e25, 1.5e22])
    if x in (6, 7):
        return r.pick(['', 'abc', 'é ü', 'a"b', 'line1\nline2', '{x}', '日本'])
    if x in (8, 9):
        return [gen_value(r, depth - 1) for _ in range(r.below(4))]
    return {f"f{i}": gen_value(r, depth - 1) for i in range(r.below(4))}


def gen_template(r, names):
    parts = []
    n = r.pick([0, 1, 1, 2, 2, 3, 4])
    plain = ['', ' ', 'x=', ' and ', ', ', 'a}b', '\n', 'end', '}', 'v: ']
    whole = n == 1 and r.chance(40)
    s = '' if whole else r.pick(plain)
    for i in range(n):
        name = r.pick(names)
        s += '{{' + r.pick([' ', '']) + name + r.pick([' ', '']) + '}}'
        if not whole:
            s += r.pick(plain)
    return s


def num_equal(a, b):
    """value-level equality: an integer and the float that denotes it are the same number"""
    if isinstance(a, bool) or isinstance(b, bool):
        return a is b
    if isinstance(a, (int, float)) and isinstance(b, (int, float)):
        # identical, integers stay integers (C14_identical); an integral float may come back as the integer (C14_same_value)
        if isinstance(b, int) and not isinstance(a, int):
            return False
        if isinstance(a, float) and isinstance(b, float):
            return a == b
        return float(a) == float(b) and (abs(a) <= 2**53)
    if isinstance(a, list) and isinstance(b, list):
        return len(a) == len(b) and all(num_equal(x, y) for x, y in zip(a, b))
    if isinstance(a, dict) and isinstance(b, dict):
        return set(a) == set(b) and all(num_equal(a[k], b[k]) for k in a)
    return a == b and type(a) == type(b)


def run(seed, n, workdir):
    os.makedirs(workdir, exist_ok=True)
    r = Rng(seed)
    cases = []
    for k in range(n):
        v = gen_value(r, 3)
        names = ['a', 'b', 'c']
        vars_ = {'v': v, 'a': r.pick([7, -3, 3000000000, 'txt', True, None, 1.5]), 'b': r.pick(['B', 12, False, 'x y']), 'c': r.pick([0, 'c', 2**31])}
        t = gen_template(r, names)
        wf = {"id": "w", "steps": [{"id": "s1", "acts": [
            {"id": "a1", "key": "a1", "uses": "acts.transform.code", "params": "$set('w', v); return { out: v, js: (v === undefined ? null : JSON.stringify(v)) };"},
            {"id": "a2", "key": "a2", "uses": "acts.core.msg", "params": {"t": t}}]}]}
        cases.append({'id': f"v{k}", 'wfs': [wf], 'vars': vars_, 't': t})
    cp = os.path.join(workdir, 'cases.jsonl')
    open(cp, 'w').write("".join(json.dumps(c) + "\n" for c in cases))
    op = os.path.join(workdir, 'impl.txt')
    errs = engine.run_harness(cp, op, os.path.join(workdir, 'w'), (), mode='raw')
    if errs:
        raise RuntimeError('harness raw failed: ' + "; ".join(errs)[:500])
    impl = engine.split_cases(op)
    rc, out, _ = sh([os.path.join(ML, 'driver_script'), cp], timeout=600)
    if rc != 0:
        raise RuntimeError('model driver failed: ' + out[-400:])
    model = {}
    for l in out.splitlines():
        m = re.match(r'case (\S+): (.*)$', l)
        if m:
            model[m.group(1)] = json.loads(m.group(2))
    dis = []
    stats = {'cases': n, 'values_beyond_i32': 0, 'templates_multi': 0, 'templates_single_whole': 0, 'templates_none': 0, 'nested_values': 0}
    ok = 0
    for c in cases:
        v = c['vars']['v']
        lines = impl.get(c['id'], [])
        data = {}
        msg_t = 'MISSING'
        for l in lines:
            p = l.split(' ', 4)
            if p[0] == 'D' and p[1] == 'a1':
                data = json.loads(p[4])
            if p[0] == 'M':
                m = json.loads(l.split(' ', 2)[2])
                if m['nid'] == 'a2':
                    msg_t = m['inputs'].get('params', {}).get('t', 'MISSING')
        good = True
        if isinstance(v, (list, dict)):
            stats['nested_values'] += 1
        if json.dumps(v).count('3000000000') or any(str(b) in json.dumps(v) for b in BOUNDARY[4:]):
            stats['values_beyond_i32'] += 1
        # the script boundary
        if not num_equal(data.get('out', 'MISSING'), v):
            dis.append({'case': c, 'what': 'value returned by the script', 'expected': v, 'observed': data.get('out', 'MISSING')}); good = False
        elif not num_equal(data.get('w', 'MISSING'), v):
            dis.append({'case': c, 'what': 'value set by the script', 'expected': v, 'observed': data.get('w', 'MISSING')}); good = False
        else:
            js = data.get('js')
            seen = json.loads(js) if isinstance(js, str) else None
            if not num_equal(seen, v):
                dis.append({'case': c, 'what': 'value seen inside the script', 'expected': v, 'observed': js}); good = False
        # templates
        nt = c['t'].count('{{')
        stats['templates_none' if nt == 0 else ('templates_single_whole' if nt == 1 and c['t'].startswith('{{') and c['t'].endswith('}}') else 'templates_multi')] += 1
        if good and not num_equal(model.get(c['id']), msg_t):
            dis.append({'case': c, 'what': 'template ' + json.dumps(c['t']), 'expected': model.get(c['id']), 'observed': msg_t}); good = False
        if good:
            ok += 1
    stats['traces_validated_against_impl'] = ok
    return {'cases': cases, 'disagreements': dis, 'stats': stats}
